//! Suite `session_faults` (C16): real `FileUploadSession` with a client whose `put` calls are held until the
//! scenario releases them with a chosen outcome (so completion order and failures are scripted) and whose
//! `upload_shard` calls can fail.  The observed history is replayed through the Lean model `Xet.Uploads`.
use std::collections::HashMap;
use std::path::PathBuf;
use std::sync::{Arc, Condvar, Mutex};
use std::time::Duration;

use cas_client::{CasClientError, Client, FileProvider, LocalClient, OutputProvider, ReconstructionClient, ShardClientInterface, UploadClient};
use cas_client::{ShardDedupProber, VerifRegistrationClient as RegistrationClient};
use cas_types::FileRange;
use data::configurations::TranslatorConfig;
use data::{FileDownloader, FileUploadSession, PointerFile};
use mdb_shard::file_structs::MDBFileInfo;
use mdb_shard::shard_file_reconstructor::FileReconstructor;
use merklehash::MerkleHash;
use utils::progress::ProgressUpdater;
use xet_threadpool::ThreadPool;

use crate::ctx::{fnv, run_children, Ctx};

pub fn run_parent(ctx: &mut Ctx) {
    // the last two configurations have a tiny shard target, so that a session hands SEVERAL shards to the store (a failing shard
    // upload is then not necessarily the last one started)
    let cfgs: Vec<Vec<(String, String)>> = [(512usize, 3000usize, 4usize, 64u64 << 20), (256, 2000, 2, 64 << 20), (1024, 6000, 6, 64 << 20), (512, 3000, 4, 600), (256, 2000, 2, 400)].iter().map(|(t, b, c, sh)| vec![
        ("HF_XET_TARGET_CHUNK_SIZE".to_string(), t.to_string()), ("HF_XET_MAX_XORB_BYTES".to_string(), b.to_string()), ("HF_XET_MAX_XORB_CHUNKS".to_string(), c.to_string()),
        ("HF_XET_MDB_SHARD_MIN_TARGET_SIZE".to_string(), sh.to_string()), ("HF_XET_MDB_SHARD_TARGET_SIZE".to_string(), sh.to_string()),
        ("HF_XET_MAX_CONCURRENT_UPLOADS".to_string(), "256".to_string())]).collect();
    run_children(ctx, "session_faults-child", &cfgs);
}

#[derive(Default)]
struct Ctl {
    /// outcome chosen for a put, by xorb hash; a put blocks until its entry exists
    release: HashMap<MerkleHash, bool>,
    started: Vec<MerkleHash>,
    returned: Vec<(MerkleHash, bool)>,
    /// the store's own ledger: byte count each successful put returned, (length, accepted?) of every upload_shard call
    put_sizes: Vec<(MerkleHash, usize)>,
    shard_log: Vec<(usize, bool)>,
    shard_calls: usize,
    fail_shard: Option<usize>,
    order: Vec<String>,
    /// set when the scenario is over: puts still waiting (their task was aborted) give up
    abort: bool,
}
struct FaultClient { inner: Arc<LocalClient>, ctl: Arc<(Mutex<Ctl>, Condvar)> }

#[async_trait::async_trait]
impl UploadClient for FaultClient {
    async fn put(&self, prefix: &str, hash: &MerkleHash, data: Vec<u8>, cb: Vec<(MerkleHash, u32)>) -> Result<usize, CasClientError> {
        let ctl = self.ctl.clone();
        let h = *hash;
        // wait (on a blocking thread, not a runtime worker) until the scenario releases this put
        let ok = tokio::task::spawn_blocking(move || {
            let (m, cv) = &*ctl;
            let mut g = m.lock().unwrap();
            g.started.push(h);
            g.order.push(format!("put-start {}", h.hex()));
            cv.notify_all();
            loop { if let Some(o) = g.release.get(&h) { return *o; } if g.abort { return false; } g = cv.wait(g).unwrap(); }
        }).await.unwrap();
        let r = if ok { self.inner.put(prefix, hash, data, cb).await } else { Err(CasClientError::Other("injected put failure".into())) };
        let (m, cv) = &*self.ctl;
        let mut g = m.lock().unwrap();
        g.returned.push((h, r.is_ok()));
        if let Ok(n) = &r { g.put_sizes.push((h, *n)); }
        g.order.push(format!("put-end {} {}", h.hex(), r.is_ok()));
        cv.notify_all();
        r
    }
    async fn exists(&self, prefix: &str, hash: &MerkleHash) -> Result<bool, CasClientError> { self.inner.exists(prefix, hash).await }
}
#[async_trait::async_trait]
impl ReconstructionClient for FaultClient {
    async fn get_file(&self, hash: &MerkleHash, r: Option<FileRange>, out: &OutputProvider, p: Option<Arc<dyn ProgressUpdater>>) -> Result<u64, CasClientError> { self.inner.get_file(hash, r, out, p).await }
}
#[async_trait::async_trait]
impl RegistrationClient for FaultClient {
    async fn upload_shard(&self, prefix: &str, hash: &MerkleHash, force: bool, data: &[u8], salt: &[u8; 32]) -> Result<bool, CasClientError> {
        let fail = { let (m, _) = &*self.ctl; let mut g = m.lock().unwrap(); let k = g.shard_calls; g.shard_calls += 1; g.order.push("shard-start".into()); g.fail_shard == Some(k) };
        if fail { self.ctl.0.lock().unwrap().shard_log.push((data.len(), false)); return Err(CasClientError::Other("injected shard upload failure".into())); }
        let r = self.inner.upload_shard(prefix, hash, force, data, salt).await;
        self.ctl.0.lock().unwrap().shard_log.push((data.len(), r.is_ok()));
        r
    }
}
#[async_trait::async_trait]
impl FileReconstructor<CasClientError> for FaultClient {
    async fn get_file_reconstruction_info(&self, h: &MerkleHash) -> Result<Option<(MDBFileInfo, Option<MerkleHash>)>, CasClientError> { self.inner.get_file_reconstruction_info(h).await }
}
#[async_trait::async_trait]
impl ShardDedupProber for FaultClient {
    async fn query_for_global_dedup_shard(&self, p: &str, c: &MerkleHash, s: &[u8; 32]) -> Result<Option<PathBuf>, CasClientError> { self.inner.query_for_global_dedup_shard(p, c, s).await }
}
impl ShardClientInterface for FaultClient {}
impl Client for FaultClient {}

static EVENTS: Mutex<Vec<(&'static str, String)>> = Mutex::new(Vec::new());
fn take_events() -> Vec<(&'static str, String)> { std::mem::take(&mut *EVENTS.lock().unwrap()) }

/// release put `h` with outcome `ok` and wait until it has returned (+ a settle time so the task is really finished)
fn release(ctl: &Arc<(Mutex<Ctl>, Condvar)>, h: MerkleHash, ok: bool, max_wait_ms: u64) {
    let (m, cv) = &**ctl;
    let mut g = m.lock().unwrap();
    g.release.insert(h, ok);
    cv.notify_all();
    let deadline = std::time::Instant::now() + Duration::from_millis(max_wait_ms);
    while !g.returned.iter().any(|(x, _)| *x == h) {
        let (ng, _to) = cv.wait_timeout(g, Duration::from_millis(20)).unwrap(); g = ng;
        if std::time::Instant::now() > deadline { break; }
    }
    drop(g);
    std::thread::sleep(Duration::from_millis(6));
}

pub fn run_child(ctx: &mut Ctx) {
    let tp = Arc::new(ThreadPool::new().expect("threadpool"));
    utils::verif_hooks::set_event_callback(Some(Arc::new(|name, data| { EVENTS.lock().unwrap().push((name, data)); })));
    // between two iterations of the shard upload loop the uploads started so far get time to finish (so that a failed one is
    // "already finished" when the next shard is started, independent of the machine's load)
    utils::verif_hooks::set_callback(Some(Arc::new(|name| { if name == "session.shard_upload.next" { std::thread::sleep(Duration::from_millis(4)); } })));
    let tmp_root = PathBuf::from(std::env::var("TMPDIR").unwrap_or("/verif/run/tmp".into())).join(format!("faults-{}-{}", std::process::id(), ctx.seed));
    let nscen = if ctx.quick() { 40 } else { 600 };
    let target: usize = std::env::var("HF_XET_TARGET_CHUNK_SIZE").unwrap().parse().unwrap();
    for sc in 0..nscen {
        let mut rng = ctx.rng.fork(70_000 + sc);
        let base = tmp_root.join(format!("s{sc}"));
        std::fs::create_dir_all(&base).unwrap();
        let config = TranslatorConfig::local_config(&base).unwrap();
        let xd = base.join("xet").join("xorbs");
        let inner = Arc::new(tp.external_run_async_task(async move { LocalClient::new(&xd, None) }).unwrap().unwrap());
        let inner_for_retry = inner.clone();
        let ctl = Arc::new((Mutex::new(Ctl::default()), Condvar::new()));
        // fault plan: which task ids fail (by spawn order), whether a shard upload fails; scenario 0..: each single put in turn
        let many_shards = std::env::var("HF_XET_MDB_SHARD_MIN_TARGET_SIZE").ok().and_then(|v| v.parse::<u64>().ok()).map_or(false, |v| v < 100_000);
        // (with several shards per session most scenarios have no xorb fault, so that the shard uploads are reached)
        let fail_task: Vec<usize> = if many_shards && rng.chance(3, 4) { vec![] } else if sc % 3 == 0 { vec![(sc / 3) as usize % 6] } else if rng.chance(1, 3) { vec![] } else { (0..rng.range(1, 3)).map(|_| rng.below(8) as usize).collect() };
        if rng.chance(if many_shards { 3 } else { 1 }, if many_shards { 4 } else { 6 }) { ctl.0.lock().unwrap().fail_shard = Some(rng.below(if many_shards { 4 } else { 2 }) as usize); }
        let client: Arc<dyn Client + Send + Sync> = Arc::new(FaultClient { inner, ctl: ctl.clone() });
        take_events();
        let (cfg2, tp2) = (config.clone(), tp.clone());
        let session = tp.external_run_async_task(async move { FileUploadSession::new_with_client(cfg2, tp2, client).await }).unwrap().unwrap();
        let nfiles = rng.range(1, 3) as usize;
        let files: Vec<Vec<u8>> = (0..nfiles).map(|_| { let n = rng.range(1, 14 * target as u64) as usize; rng.bytes(n) }).collect();
        let mut trace: Vec<String> = Vec::new();
        let mut btrace: Vec<String> = Vec::new();             // the same history for `up.bytes`; "R<id>" = registration that spawned task <id>
        let mut task_hash: Vec<MerkleHash> = Vec::new();      // spawn order -> xorb hash
        let mut released: Vec<bool> = Vec::new();
        let mut api_errors = 0usize;
        let mut any_api_error = false;
        let mut pointers: Vec<(PointerFile, Vec<u8>)> = Vec::new();
        let stop_on_error = rng.chance(1, 2);
        // after every API call: account the register calls it made, then maybe release some pending puts
        macro_rules! after_call { ($ok:expr) => {{
            let evs = take_events();
            let regs: Vec<MerkleHash> = evs.iter().filter(|e| e.0 == "session.add_cas_block").map(|e| MerkleHash::from_hex(e.1.split(' ').next().unwrap()).unwrap()).collect();
            let nregs = regs.len();
            for (k, h) in regs.into_iter().enumerate() { trace.push("r1".into()); if $ok || k + 1 < nregs { btrace.push(format!("R{}", task_hash.len())); task_hash.push(h); released.push(false); } else { btrace.push("r1:0".into()); } }
            if !$ok { api_errors += 1; any_api_error = true; }
            // release a random subset of the pending puts, in random order
            let mut pending: Vec<usize> = (0..task_hash.len()).filter(|i| !released[*i]).collect();
            while !pending.is_empty() && rng.chance(2, 3) {
                let k = rng.below(pending.len() as u64) as usize; let i = pending.remove(k);
                let ok = !fail_task.contains(&i);
                release(&ctl, task_hash[i], ok, 3000); released[i] = true; trace.push(format!("c{}:{}", i, ok as u8)); btrace.push(format!("c{}:{}", i, ok as u8));
            }
        }}; }
        'files: for (fi, data) in files.iter().enumerate() {
            let mut cleaner = Some(session.start_clean(format!("f{fi}")));
            let mut pos = 0;
            while pos < data.len() {
                let n = (rng.range(1, 6 * target as u64) as usize).min(data.len() - pos);
                let piece = data[pos..pos + n].to_vec();
                let mut cl = cleaner.take().unwrap();
                let r = tp.external_run_async_task(async move { cl.add_data(&piece).await.map(|_| cl) }).unwrap();
                match r { Ok(cl) => { cleaner = Some(cl); after_call!(true); } Err(_) => { after_call!(false); if stop_on_error { break 'files; } else { continue 'files; } } }
                pos += n;
            }
            let cl = cleaner.take().unwrap();
            let r = tp.external_run_async_task(async move { cl.finish().await }).unwrap();
            match r { Ok((p, _)) => { pointers.push((p, data.clone())); after_call!(true); } Err(_) => { after_call!(false); if stop_on_error { break 'files; } } }
        }
        // finalize: the remaining puts are released (in id order) by a helper thread while finalize waits for them
        let pending: Vec<usize> = (0..task_hash.len()).filter(|i| !released[*i]).collect();
        let sess2 = session.clone(); drop(session);
        let ctl2 = ctl.clone(); let th2 = task_hash.clone(); let ft2 = fail_task.clone(); let pend2 = pending.clone();
        let n_before = task_hash.len();
        let done = Arc::new(std::sync::atomic::AtomicBool::new(false));
        let done2 = done.clone();
        let helper = std::thread::spawn(move || {
            // the last xorb is registered inside finalize: give it a moment to start, then release everything that is pending,
            // and keep releasing puts that start inside finalize until finalize has returned
            std::thread::sleep(Duration::from_millis(15));
            for i in pend2 { release(&ctl2, th2[i], !ft2.contains(&i), 400); }
            while !done2.load(std::sync::atomic::Ordering::SeqCst) {
                let extra: Vec<MerkleHash> = { let g = ctl2.0.lock().unwrap(); g.started.iter().filter(|h| !g.release.contains_key(h)).copied().collect() };
                for h in &extra { release(&ctl2, *h, !ft2.contains(&n_before), 150); }
                std::thread::sleep(Duration::from_millis(3));
            }
        });
        let fin = tp.external_run_async_task(async move { sess2.finalize().await }).unwrap();
        done.store(true, std::sync::atomic::Ordering::SeqCst);
        helper.join().unwrap();
        let evs = take_events();
        let last_ne = evs.iter().any(|e| e.0 == "session.add_cas_block");
        if last_ne { let h = MerkleHash::from_hex(evs.iter().find(|e| e.0 == "session.add_cas_block").unwrap().1.split(' ').next().unwrap()).unwrap(); task_hash.push(h); released.push(true); }
        let g = ctl.0.lock().unwrap();
        let outcome_of = |h: &MerkleHash| g.returned.iter().find(|(x, _)| x == h).map(|(_, ok)| *ok);
        let mut rest: String = pending.iter().map(|i| if fail_task.contains(i) { '0' } else { '1' }).collect();
        if last_ne { match outcome_of(task_hash.last().unwrap()) { Some(ok) => rest.push(if ok { '1' } else { '0' }), None => rest.push('1') } }
        let shards_started = g.order.iter().any(|o| o == "shard-start");
        let shard_failed = g.fail_shard.map(|k| k < g.shard_calls).unwrap_or(false);
        let shard_calls_n = g.shard_calls;
        trace.push(format!("f{}:{}:{}", last_ne as u8, if rest.is_empty() { "-".to_string() } else { rest.clone() }, (!shard_failed) as u8));
        if fin.is_err() { api_errors += 1; any_api_error = true; }
        // ---- C14, upload-byte clause: the same history with byte counts (store ledger = what each successful put returned, the
        // length of every shard the store accepted), replayed through the byte-accounting layer of the model
        let size_of = |h: &MerkleHash| g.put_sizes.iter().find(|e| e.0 == *h).map(|e| e.1).unwrap_or(0);
        let last_sz = if last_ne { size_of(task_hash.last().unwrap()) } else { 0 };
        let shards_tok = if g.shard_log.is_empty() { "-".to_string() } else { g.shard_log.iter().map(|(l, ok)| format!("{}.{}", l, *ok as u8)).collect::<Vec<_>>().join("/") };
        let mut bt: Vec<String> = btrace.iter().map(|t| if let Some(id) = t.strip_prefix('R') { format!("r1:{}", size_of(&task_hash[id.parse::<usize>().unwrap()])) } else { t.clone() }).collect();
        bt.push(format!("f{}:{}:{}:{}", last_ne as u8, last_sz, if rest.is_empty() { "-".to_string() } else { rest.clone() }, shards_tok));
        let impl_bytes = match &fin { Ok(m) => format!("final=ok xorb={} shard={} total={}", m.xorb_bytes_uploaded, m.shard_bytes_uploaded, m.total_bytes_uploaded), Err(_) => "final=err xorb=none shard=none total=none".to_string() };
        let breplay = format!("{{\"suite\":\"session_faults\",\"seed\":{},\"scenario\":{},\"trace\":\"{}\"}}", ctx.seed, sc, bt.join(","));
        if let Ok(m) = &fin {
            let store_xorb: usize = g.put_sizes.iter().map(|e| e.1).sum();
            let store_shard: usize = g.shard_log.iter().filter(|x| x.1).map(|x| x.0).sum();
            if m.xorb_bytes_uploaded != store_xorb { ctx.fail("C14", "xorb-bytes-reported-differ-from-store", format!("finalize reported xorb_bytes_uploaded = {} but the store accepted {} bytes in {} puts (some still running when finalize was called: {})", m.xorb_bytes_uploaded, store_xorb, g.put_sizes.len(), pending.len() + last_ne as usize), breplay.clone()); }
            if m.shard_bytes_uploaded != store_shard { ctx.fail("C14", "shard-bytes-reported-differ-from-store", format!("finalize reported shard_bytes_uploaded = {} but the store accepted {} bytes in {} shards", m.shard_bytes_uploaded, store_shard, g.shard_log.len()), breplay.clone()); }
            if m.total_bytes_uploaded != m.xorb_bytes_uploaded + m.shard_bytes_uploaded { ctx.fail("C14", "total-bytes-uploaded-not-sum", format!("total_bytes_uploaded = {} != {} + {}", m.total_bytes_uploaded, m.xorb_bytes_uploaded, m.shard_bytes_uploaded), breplay.clone()); }
            ctx.stat(if pending.len() + last_ne as usize > 0 { "byte_sessions_ok_with_puts_joined_by_finalize" } else { "byte_sessions_ok_all_puts_done_before_finalize" });
        }
        let replay = format!("{{\"suite\":\"session_faults\",\"seed\":{},\"scenario\":{},\"trace\":\"{}\"}}", ctx.seed, sc, trace.join(","));

        // ---- monitors on the implementation
        // (1) order: when the first shard upload starts every put has returned successfully
        if let Some(p) = g.order.iter().position(|o| o == "shard-start") {
            let before: Vec<&String> = g.order[..p].iter().collect();
            let starts = before.iter().filter(|o| o.starts_with("put-start")).count();
            let ends_ok = before.iter().filter(|o| o.starts_with("put-end") && o.ends_with("true")).count();
            if starts != ends_ok || g.order[p..].iter().any(|o| o.starts_with("put-")) {
                ctx.fail("C16", "shard-before-xorbs", format!("a shard upload started although not every xorb put had completed successfully ({starts} started, {ends_ok} succeeded)"), replay.clone());
            }
        }
        // (2) failures are never swallowed
        let any_put_failed = g.returned.iter().any(|(_, ok)| !ok);
        if (any_put_failed || shard_failed) && !any_api_error { ctx.fail("C16", "failure-swallowed", "an upload failed but every API call returned Ok".into(), replay.clone()); }
        if (any_put_failed || shard_failed) && fin.is_ok() { ctx.fail("C16", "finalize-ok-after-failed-upload", "finalize returned Ok although an upload of the session had failed".into(), replay.clone()); }
        drop(g);
        // (3) success means reconstructible
        if fin.is_ok() && !any_api_error {
            let (dl_cfg, tp3) = (config.clone(), tp.clone());
            let downloader = Arc::new(tp.external_run_async_task(async move { FileDownloader::new(dl_cfg, tp3).await }).unwrap().unwrap());
            for (pi, (ptr, bytes)) in pointers.iter().enumerate() {
                let out_path = base.join(format!("dl-{pi}"));
                let (dlr, p2, op) = (downloader.clone(), ptr.clone(), OutputProvider::File(FileProvider::new(out_path.clone())));
                let res = tp.external_run_async_task(async move { dlr.smudge_file_from_pointer(&p2, &op, None, None).await }).unwrap();
                if res.is_err() || std::fs::read(&out_path).unwrap_or_default() != *bytes { ctx.fail("C16", "success-but-not-reconstructible", format!("session reported success but file {pi} cannot be reconstructed"), replay.clone()); }
            }
        }
        // ---- model replay
        let g = ctl.0.lock().unwrap();
        let tasks: String = task_hash.iter().map(|h| match g.returned.iter().find(|(x, _)| x == h) { Some((_, true)) => 'o', Some((_, false)) => 'f', None => 'r' }).collect();
        drop(g);
        let fin_s = if fin.is_ok() { "ok" } else { "err" };
        ctx.op(&format!("up.obs ev={}", trace.join(",")), &format!("final={fin_s} apiErrors={api_errors} shards={} tasks={}", shards_started as u8, if fin.is_ok() { tasks } else { "*".to_string() }));
        ctx.op(&format!("up.bytes ev={}", bt.join(",")), &impl_bytes);
        ctx.stat(if any_put_failed { "scenarios_with_put_failure" } else { "scenarios_without_put_failure" });
        if shard_failed { ctx.stat("scenarios_with_shard_failure"); }
        ctx.stat(&format!("shard_upload_calls_{}", shard_calls_n.min(9)));
        ctx.stat(if fin.is_ok() { "finalize_ok" } else { "finalize_err" });
        ctx.stat_add("tasks", task_hash.len() as u64);
        ctx.case(fnv(trace.join(",").as_bytes()), task_hash.len() >= 2);
        { let (m, cv) = &*ctl; m.lock().unwrap().abort = true; cv.notify_all(); }
        // ---- retry (C16): after a session that failed, the same process uploads the same files again on the same directories
        // with a store that works; the retry reports success, so every file must be reconstructible from the store (nothing the
        // failed session left behind - in the session directory, the shard cache or in-memory state - may stand in for an xorb
        // that never reached the store)
        if fin.is_err() && sc % 2 == 0 {
            let _ = take_events();
            let client2: Arc<dyn Client + Send + Sync> = inner_for_retry.clone();
            let (cfg3, tp3) = (config.clone(), tp.clone());
            let retry = tp.external_run_async_task(async move { FileUploadSession::new_with_client(cfg3, tp3, client2).await }).unwrap();
            if let Ok(session2) = retry {
                let mut ptrs: Vec<(PointerFile, Vec<u8>)> = Vec::new();
                let mut all_ok = true;
                for (fi, data) in files.iter().enumerate() {
                    let cl = session2.start_clean(format!("r{fi}"));
                    let d2 = data.clone();
                    let r = tp.external_run_async_task(async move { let mut cl = cl; cl.add_data(&d2).await?; cl.finish().await }).unwrap();
                    match r { Ok((ptr, _)) => ptrs.push((ptr, data.clone())), Err(_) => { all_ok = false; } }
                }
                let fin2 = tp.external_run_async_task(async move { session2.finalize().await }).unwrap();
                if all_ok && fin2.is_ok() {
                    ctx.stat("retry_sessions_ok");
                    let (dl_cfg, tp4) = (config.clone(), tp.clone());
                    if let Ok(downloader) = tp.external_run_async_task(async move { FileDownloader::new(dl_cfg, tp4).await }).unwrap() {
                        let downloader = Arc::new(downloader);
                        for (pi, (ptr, bytes)) in ptrs.iter().enumerate() {
                            let out_path = base.join(format!("retry-dl-{pi}"));
                            let _ = std::fs::remove_file(&out_path);
                            let (dlr, p2, op) = (downloader.clone(), ptr.clone(), OutputProvider::File(FileProvider::new(out_path.clone())));
                            let res = tp.external_run_async_task(async move { dlr.smudge_file_from_pointer(&p2, &op, None, None).await }).unwrap();
                            let got = std::fs::read(&out_path).unwrap_or_default();
                            let good = matches!(res, Ok(n) if n as usize == bytes.len()) && &got == bytes;
                            if !good {
                                ctx.fail("C16", "retry-after-failure-not-reconstructible", format!("a session failed (an upload was refused); the retry of the same {} file(s) in the same process reported success, but file {pi} ({} bytes) cannot be reconstructed from the store: {}", ptrs.len(), bytes.len(), match &res { Ok(n) => format!("{n} bytes, content differs"), Err(e) => format!("{e}") }),
                                         format!("{{\"suite\":\"session_faults\",\"seed\":{},\"scenario\":{},\"retry\":true}}", ctx.seed, sc));
                            }
                            let _ = std::fs::remove_file(&out_path);
                        }
                    }
                } else { ctx.stat("retry_sessions_not_ok"); }
            }
        }
        let _ = std::fs::remove_dir_all(&base);
    }
    utils::verif_hooks::set_event_callback(None);
    utils::verif_hooks::set_callback(None);
    let _ = std::fs::remove_dir_all(&tmp_root);
}
